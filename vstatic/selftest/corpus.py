"""Self-validation corpus.  Each entry edits a scratch copy of the current tree:
kind 'break'  - a realistic regression that violates the property (must be reported, exit 1)
kind 'benign' - a behaviour preserving rewrite (must stay silent, exit 0)
edits: (file under src/someip, anchor text that must occur exactly once, replacement)."""

CORPUS = []


def M(name, props, kind, *edits):
    CORPUS.append({"name": name, "props": props.split(","), "kind": kind, "edits": list(edits)})


H, S, C, V = "header.py", "sd.py", "config.py", "service.py"

# ---------------------------------------------------------------- C01
M("c01-length-masked", "C01,C20", "break", (H, "size = len(self.payload) + 8", "size = (len(self.payload) + 8) & 0xFFFF"))
M("c01-writer-swaps-client-session", "C01,C20", "break", (H, "            self.client_id,\n            self.session_id,\n            self.protocol_version,", "            self.session_id,\n            self.client_id,\n            self.protocol_version,"))
M("c01-reader-swaps-client-session", "C01,C20", "break", (H, "                client_id=cid,\n                session_id=sessid,", "                client_id=sessid,\n                session_id=cid,"))
M("c01-drop-length-guard", "C01,C18", "break", (H, '        if size < 8:\n            raise ParseError("SOMEIP length must be at least 8")\n', ""))
M("c01-rest-slice", "C01", "break", (H, "payload_b, buf_rest = buf_rest[: size - 8], buf_rest[size - 8 :]", "payload_b, buf_rest = buf_rest[: size - 8], buf_rest[size :]"))
M("c01-loop-to-if", "C01", "break", (S, "            while data:\n                # 4.2.1", "            if data:\n                # 4.2.1"))
M("c01-little-endian", "C01", "break", (H, 'struct.Struct("!HHIHHBBBB")', 'struct.Struct("<HHIHHBBBB")'))
M("c01-truncation-guard-off-by-one", "C01", "break", (H, "        if len(buf_rest) < size - 8:", "        if len(buf_rest) < size - 9:"))
M("c01-length-guard-le", "C01", "break", (H, "        if size < 8:", "        if size <= 8:"))
M("c01-twin-not-ge", "C01,C18,C20", "benign", (H, "        if size < 8:", "        if not size >= 8:"))
M("c01-twin-join", "C01,C20", "benign", (H, "        return hdr + self.payload", '        return b"".join([hdr, self.payload])'))
M("c01-twin-rename-locals", "C01,C18,C20", "benign", (H, "        parsed, buf_rest = _unpack(cls.__format, buf)\n        size, builder = cls._parse_header(parsed)\n        if len(buf_rest) < size - 8:", "        fields, buf_rest = _unpack(cls.__format, buf)\n        size, builder = cls._parse_header(fields)\n        if len(buf_rest) < size - 8:"))

# ---------------------------------------------------------------- C02 / C20
M("c02-count-mask-7", "C02,C20", "break", (H, "        no2 = numopt & 0x0F", "        no2 = numopt & 0x07"))
M("c02-count-shift-3", "C02,C20", "break", (H, "        no1 = numopt >> 4", "        no1 = numopt >> 3"))
M("c02-option-length-plus-one", "C02,C20", "break", (H, "return self.__format.pack(len(buf), type_b) + buf", "return self.__format.pack(len(buf) + 1, type_b) + buf"))
M("c02-index-after-extend", "C02", "break", (H, "            oi = len(hdr_options)\n            hdr_options.extend(entry_options)", "            hdr_options.extend(entry_options)\n            oi = len(hdr_options)"))
M("c02-resolve-wrong-count", "C02", "break", (H, "            options_2=options[oi2 : oi2 + no2],", "            options_2=options[oi2 : oi2 + no1],"))
M("c02-find-returns-i-minus-n", "C02", "break", (H, "            return i - n + 1", "            return i - n"))
M("c02-find-compares-wrong-element", "C02", "break", (H, "if haystack[i - j] != needle[-j - 1]:", "if haystack[i - j] != needle[-j]:"))
M("c02-bounds-check-off-by-one", "C02", "break", (H, "        if oi2 + no2 > num_options:", "        if oi2 + no2 > num_options + 1:"))
M("c02-ttl-high-masked", "C02", "break", (H, "            self.ttl >> 16,", "            (self.ttl >> 16) & 0xFF,"))
M("c02-assign-reversed", "C02", "break", (H, "        entries = [e.assign_option_index(options) for e in self.entries]", "        entries = [e.assign_option_index(options) for e in reversed(self.entries)]"))
M("c02-sd-framing-guard", "C02", "break", (H, "        if len(rest_buf) < entries_length + 4:", "        if len(rest_buf) < entries_length:"))
M("c02-duplicate-option-type", "C02", "break", (H, "    type: typing.ClassVar[int] = 0x16", "    type: typing.ClassVar[int] = 0x14"))
M("c02-ip-option-swaps-port-proto", "C02,C20", "break", (H, "self._format.pack(0, self.address.packed, 0, self.l4proto, self.port)", "self._format.pack(0, self.address.packed, 0, self.port, self.l4proto)"))
M("c02-config-length", "C02,C20", "break", (H, "                buf.append(len(k) + len(v) + 1)", "                buf.append(len(k) + len(v))"))
M("c02-config-rfind", "C02,C20", "break", (H, '            split = cfg_str.find(b"=")', '            split = cfg_str.rfind(b"=")'))
M("c02-unicast-flag-bit", "C02,C20", "break", (H, "        flag_unicast = bool(flags & 0x40)", "        flag_unicast = bool(flags & 0x20)"))
M("c02-run-count-guard-removed", "C02", "break", (H, "        if not (0 <= no1 <= 0x0F and 0 <= no2 <= 0x0F):", "        if False:"))
M("c20-unknown-option-type-zero", "C20", "break", (H, "        return self.build_option(self.type, self.payload)", "        return self.build_option(0, self.payload)"))
M("c20-flags-unknown-dropped", "C20,C02", "break", (H, "        flags = self.flags_unknown\n", "        flags = 0\n"))
M("c20-l4proto-no-fallback", "C20", "break", (H, "        except ValueError:\n            l4proto = l4proto_b", '        except ValueError as exc:\n            raise ParseError("bad proto") from exc'))
M("c20-ttl-shift-24", "C20,C02", "break", (H, "        ttl = (ttl_hi << 16) | ttl_lo", "        ttl = (ttl_hi << 24) | ttl_lo"))
M("c20-unknown-drops-first-byte", "C20,C02", "break", (H, "return SOMEIPSDUnknownOption(type=type_b, payload=opt_b), buf_rest", "return SOMEIPSDUnknownOption(type=type_b, payload=opt_b[1:]), buf_rest"))
M("c20-unknown-flag-bit-lost", "C20,C02", "break", (H, "        flags &= ~0x40", "        flags &= ~0x41"))
M("c20-loadbalancing-offset", "C20,C02", "break", (H, 'struct.unpack("!HH", buf[1:])', 'struct.unpack("!HH", buf[:4])'))
M("c02-twin-struct-pack-inline", "C02,C20", "benign", (H, "        return self.__format.pack(len(buf), type_b) + buf", '        return struct.pack("!HB", len(buf), type_b) + buf'))
M("c02-twin-guard-form", "C02,C20", "benign", (H, "        if oi1 + no1 > num_options:", "        if not (oi1 + no1 <= num_options):"))

# ---------------------------------------------------------------- object model (rules/model.py): hooks that change what ==, bool(),
# Enum(value) and Cls(...) mean for the code the rules read - and hooks that do not
_INST_REPR = "    def __repr__(self):\n        return f\"<ServiceInstance {self.service}>\"\n"
M("om-instance-eq-by-service", "C10,C11,C12", "break", (S, _INST_REPR, _INST_REPR + "\n    def __eq__(self, other):\n        if not isinstance(other, ServiceInstance):\n            return NotImplemented\n        return self.service == other.service\n\n    def __hash__(self):\n        return hash(self.service)\n"))
M("om-twin-instance-eq-is-identity", "C10,C11,C12", "benign", (S, _INST_REPR, _INST_REPR + "\n    def __eq__(self, other):\n        return self is other\n\n    def __hash__(self):\n        return id(self)\n"))
M("om-service-minor-not-compared", "C05,C09,C12,C13,C19", "break", (C, "    minor_version: int = 0xFFFFFFFF\n\n    options_1", "    minor_version: int = dataclasses.field(default=0xFFFFFFFF, compare=False)\n\n    options_1"))
M("om-service-options-compared", "C05,C09,C12,C13,C19", "break", (C, "    options_1: typing.Tuple[someip.header.SOMEIPSDOption, ...] = dataclasses.field(\n        default=(), compare=False\n    )", "    options_1: typing.Tuple[someip.header.SOMEIPSDOption, ...] = ()"))
M("om-twin-service-extra-uncompared-field", "C05,C09,C12,C13,C19", "benign", (C, "    eventgroups: typing.FrozenSet[int] = frozenset()\n", "    eventgroups: typing.FrozenSet[int] = frozenset()\n    description: str = dataclasses.field(default=\"\", compare=False)\n"))
M("om-twin-service-str", "C05,C13,C19", "benign", (C, "    eventgroups: typing.FrozenSet[int] = frozenset()\n", "    eventgroups: typing.FrozenSet[int] = frozenset()\n\n    def __str__(self) -> str:\n        return f\"{self.service_id:04x}.{self.instance_id:04x}\"\n"))
M("om-service-post-init-rewrites-minor", "C19,C05,C13", "break", (C, "    eventgroups: typing.FrozenSet[int] = frozenset()\n", "    eventgroups: typing.FrozenSet[int] = frozenset()\n\n    def __post_init__(self):\n        if self.major_version == 0xFF:\n            object.__setattr__(self, \"minor_version\", 0xFFFFFFFF)\n"))
M("om-twin-service-post-init-coerces-eventgroups", "C19,C05,C13", "benign", (C, "    eventgroups: typing.FrozenSet[int] = frozenset()\n", "    eventgroups: typing.FrozenSet[int] = frozenset()\n\n    def __post_init__(self):\n        object.__setattr__(self, \"eventgroups\", frozenset(self.eventgroups))\n"))
M("om-return-code-missing-maps", "C01,C03,C18,C20", "break", (H, "    E_WRONG_MESSAGE_TYPE = 10\n", "    E_WRONG_MESSAGE_TYPE = 10\n\n    @classmethod\n    def _missing_(cls, value):\n        if isinstance(value, int) and 0x20 <= value <= 0x5E:\n            return cls.E_NOT_OK\n        return None\n"))
M("om-twin-return-code-missing-rejects", "C01,C03,C18,C20", "benign", (H, "    E_WRONG_MESSAGE_TYPE = 10\n", "    E_WRONG_MESSAGE_TYPE = 10\n\n    @classmethod\n    def _missing_(cls, value):\n        return None\n"))
M("om-eventgroup-len", "C17", "break", (V, "class SimpleEventgroup:\n", "class SimpleEventgroup:\n    def __len__(self):\n        return len(self.values)\n\n"))
M("om-twin-log-exceptions-other-property", "C03,C18,C13", "benign", ("utils.py", "                except Exception:\n                    self.log.exception(\n                        msg.format(__func__=f.__qualname__, *args, **kwargs)\n                    )\n\n        else:", "                except BaseException:\n                    self.log.exception(\n                        msg.format(__func__=f.__qualname__, *args, **kwargs)\n                    )\n\n        else:"))
M("om-twin-eventgroup-repr", "C17", "benign", (V, "class SimpleEventgroup:\n", "class SimpleEventgroup:\n    def __repr__(self):\n        return f\"<SimpleEventgroup {self.id:#x}>\"\n\n"))
M("om-log-exceptions-catches-base", "C08,C10,C12,C14,C17", "break", ("utils.py", "                except Exception:\n                    self.log.exception(\n                        msg.format(__func__=f.__qualname__, *args, **kwargs)\n                    )\n\n        else:", "                except BaseException:\n                    self.log.exception(\n                        msg.format(__func__=f.__qualname__, *args, **kwargs)\n                    )\n\n        else:"))

_SVC_HEAD = "@dataclasses.dataclass(frozen=True)\nclass Service:\n"
M("om-memoised-result-carries-uncompared-field", "C05,C13,C19", "break", (C, _SVC_HEAD, "import functools\n\n\n@functools.lru_cache(maxsize=None)\ndef _first_option(service: \"Service\"):\n    return service.options_1[:1]\n\n\n" + _SVC_HEAD))
M("om-twin-memoised-on-compared-fields", "C05,C13,C19", "benign", (C, _SVC_HEAD, "import functools\n\n\n@functools.lru_cache(maxsize=None)\ndef _ids(service: \"Service\"):\n    return (service.service_id, service.instance_id)\n\n\n" + _SVC_HEAD))
M("c08-twin-yield-before-the-ids", "C08,C17", "benign", (V, "        addr = await endpoint.addrinfo()\n", "        addr = await endpoint.addrinfo()\n        await asyncio.sleep(0)\n"))
M("c08-yield-between-id-and-send", "C08", "break", (V, "            msgbuf += hdr.build()\n", "            msgbuf += hdr.build()\n            await asyncio.sleep(0)\n"))
M("c09-ttl-forever-by-identity", "C04,C05,C06,C09", "break", (S, "        if ttl != TTL_FOREVER:", "        if ttl is not TTL_FOREVER:"))
M("c09-twin-ttl-forever-not-equal", "C04,C05,C06,C09", "benign", (S, "        if ttl != TTL_FOREVER:", "        if not ttl == TTL_FOREVER:"))

M("c13-entries-skips-untimed-records", "C13", "break", (S, "        return itertools.chain.from_iterable(x.keys() for x in self.store.values())", "        return [k for x in self.store.values() for k, (_cb, handle) in x.items() if handle]"))
M("c13-twin-entries-as-generator", "C13,C05", "benign", (S, "        return itertools.chain.from_iterable(x.keys() for x in self.store.values())", "        for per_address in self.store.values():\n            yield from per_address"))
M("c14-refresh-ends-for-infinite-ttl", "C14,C04", "break", (S, "            if self.timings.SUBSCRIBE_REFRESH_INTERVAL is None:\n                break\n", "            if self.timings.SUBSCRIBE_REFRESH_INTERVAL is None or self.timings.SUBSCRIBE_TTL >= TTL_FOREVER:\n                break\n"))
M("c14-twin-refresh-interval-local", "C14,C04", "benign", (S, "            if self.timings.SUBSCRIBE_REFRESH_INTERVAL is None:\n                break\n", "            interval = self.timings.SUBSCRIBE_REFRESH_INTERVAL\n            if interval is None:\n                break\n"))
M("c10-infinite-ttl-skips-cyclic-phase", "C10,C04", "break", (S, "            if not self.timings.CYCLIC_OFFER_DELAY:  # 4.2.1 SWS_SD_00451\n                return\n", "            if not self.timings.CYCLIC_OFFER_DELAY or ttl == TTL_FOREVER:  # 4.2.1 SWS_SD_00451\n                return\n"))
M("c01-return-code-half-open-range", "C01", "break", (H, "            rc = SOMEIPReturnCode(rc_b)\n", "            if rc_b not in range(SOMEIPReturnCode.E_OK, SOMEIPReturnCode.E_WRONG_MESSAGE_TYPE):\n                raise ValueError(rc_b)\n            rc = SOMEIPReturnCode(rc_b)\n"))
M("c01-twin-return-code-closed-range", "C01,C03,C18,C20", "benign", (H, "            rc = SOMEIPReturnCode(rc_b)\n", "            if rc_b not in range(SOMEIPReturnCode.E_OK, SOMEIPReturnCode.E_WRONG_MESSAGE_TYPE + 1):\n                raise ValueError(rc_b)\n            rc = SOMEIPReturnCode(rc_b)\n"))

# ---------------------------------------------------------------- C07
M("c07-ge-to-gt", "C07", "break", (S, "old_session_id >= session_id", "old_session_id > session_id"))
M("c07-key-without-channel", "C07", "break", (S, "k = (sender, multicast)", "k = (sender,)"))
M("c07-no-update-in-finally", "C07", "break", (S, "        finally:\n            self.incoming[k] = (flag, session_id)", "        finally:\n            pass"))
M("c07-id-comparison-deleted", "C07", "break", (S, "not old_flag or (old_session_id > 0 and old_session_id >= session_id)", "not old_flag"))
M("c07-channel-constant", "C07", "break", (S, "addr, multicast, sdhdr.flag_reboot, someip_message.session_id", "addr, False, sdhdr.flag_reboot, someip_message.session_id"))
M("c07-twin-get", "C07", "benign", (S, "                not old_flag or (old_session_id > 0 and old_session_id >= session_id)", "                not old_flag or (old_session_id >= session_id and old_session_id > 0)"))

# ---------------------------------------------------------------- C08
M("c08-wrap-gt", "C08", "break", (S, "if _id >= 0xFFFF:", "if _id > 0xFFFF:"))
M("c08-wrap-to-zero", "C08", "break", (S, "self.outgoing[remote] = (False, 1)", "self.outgoing[remote] = (False, 0)"))
M("c08-step-two", "C08", "break", (S, "self.outgoing[remote] = (flag, _id + 1)", "self.outgoing[remote] = (flag, _id + 2)"))
M("c08-flag-kept-on-wrap", "C08", "break", (S, "self.outgoing[remote] = (False, 1)", "self.outgoing[remote] = (flag, 1)"))
M("c08-default-zero", "C08", "break", (S, "collections.defaultdict(lambda: (True, 1))", "collections.defaultdict(lambda: (True, 0))"))
M("c08-id-before-empty-check", "C08", "break", (S, "        if not entries:\n            return\n        flag_reboot, session_id = self.session_storage.assign_outgoing(remote)", "        flag_reboot, session_id = self.session_storage.assign_outgoing(remote)\n        if not entries:\n            return"))
M("c08-key-none", "C08", "break", (S, "flag_reboot, session_id = self.session_storage.assign_outgoing(remote)", "flag_reboot, session_id = self.session_storage.assign_outgoing(None)"))
M("c08-id-masked", "C08", "break", (S, "            session_id=session_id,\n            interface_version=1,", "            session_id=session_id & 0xFF,\n            interface_version=1,"))
M("c08-twin-eq", "C08", "benign", (S, "if _id >= 0xFFFF:", "if not _id < 0xFFFF:"))

# ---------------------------------------------------------------- C18
M("c18-read-instead-of-readexactly", "C18", "break", (H, "payload_b = await reader.readexactly(size - 8)", "payload_b = await reader.read(size - 8)"))
M("c18-payload-length", "C18", "break", (H, "payload_b = await reader.readexactly(size - 8)", "payload_b = await reader.readexactly(size - 16)"))
M("c18-extra-validation-in-read", "C18", "break", (H, "        size, builder = cls._parse_header(parsed)\n\n        payload_b = await", '        size, builder = cls._parse_header(parsed)\n        if size > 0xFFFF:\n            raise ParseError("too big")\n\n        payload_b = await'))
M("c18-eof-swallowed", "C18", "break", (H, "        hdr_b = await reader.readexactly(cls.__format.size)\n        parsed", "        try:\n            hdr_b = await reader.readexactly(cls.__format.size)\n        except asyncio.IncompleteReadError:\n            return None\n        parsed"))

# ---------------------------------------------------------------- C19
M("c19-find-wildcard-wrong-side", "C19", "break", (C, "if entry.major_version != 0xFF and self.major_version != entry.major_version:", "if self.major_version != 0xFF and self.major_version != entry.major_version:"))
M("c19-service-one-sided", "C19", "break", (C, "            and other.major_version != 0xFF\n", ""))
M("c19-for-service-keeps-major", "C19", "break", (C, "            instance_id=service.instance_id,\n            major_version=service.major_version,\n        )", "            instance_id=service.instance_id,\n        )"))
M("c19-subscribe-ignores-eventgroup", "C19", "break", (C, "        return entry.eventgroup_id in self.eventgroups", "        return True"))
M("c19-offer-entry-options-swapped", "C19", "break", (C, "            minver_or_counter=self.minor_version,\n            options_1=tuple(self.options_1),", "            minver_or_counter=self.minor_version,\n            options_1=tuple(self.options_2),"))
M("c19-twin-eq-form", "C19", "benign", (C, "        if self.service_id != other.service_id:\n            return False\n\n        if (\n            self.instance_id != 0xFFFF", "        if not (self.service_id == other.service_id):\n            return False\n\n        if (\n            self.instance_id != 0xFFFF"))

# ---------------------------------------------------------------- C05 / C06 / C09 (event-loop ordering, TimedStore typestate)
M("ord-reboot-fanout-deferred", "C06,C04", "break", (S, "        self.subscriber.reboot_detected(addr)\n        self.discovery.reboot_detected(addr)\n        self.announcer.reboot_detected(addr)", "        asyncio.get_event_loop().call_soon(self.subscriber.reboot_detected, addr)\n        asyncio.get_event_loop().call_soon(self.discovery.reboot_detected, addr)\n        asyncio.get_event_loop().call_soon(self.announcer.reboot_detected, addr)"))
M("ord-expired-callback-deferred", "C05,C06,C09", "break", (S, "        # must be called immediately, see stop()\n        callback(entry, address)", "        asyncio.get_event_loop().call_soon(callback, entry, address)"))
M("ord-bulk-callback-deferred", "C05,C06,C09", "break", (S, "            if handle:\n                handle.cancel()\n            callback(entry, address)", "            if handle:\n                handle.cancel()\n            asyncio.get_event_loop().call_soon(callback, entry, address)"))
M("ord-watch-catchup-deferred", "C05", "break", (S, "                if service.matches_service(s):\n                    listener.service_offered(s, addr)", "                if service.matches_service(s):\n                    asyncio.get_event_loop().call_soon(listener.service_offered, s, addr)"))
M("ord-unwatch-only-deferred", "C05", "break", (S, "                if service.matches_service(s):\n                    listener.service_stopped(s, addr)", "                if service.matches_service(s):\n                    asyncio.get_event_loop().call_soon(listener.service_stopped, s, addr)"))
M("ts-no-cancel-on-refresh", "C09", "break", (S, "            if old_timeout_handle:\n                old_timeout_handle.cancel()", "            pass"))
M("ts-no-cancel-on-stop", "C09", "break", (S, "        if _timeout_handle:\n            _timeout_handle.cancel()\n", ""))
M("ts-ttl-scaled", "C09", "break", (S, "                ttl, self._expired, address, entry", "                ttl * 1000, self._expired, address, entry"))
M("ts-forever-armed", "C09", "break", (S, "        if ttl != TTL_FOREVER:", "        if ttl != 0:"))
M("ts-handle-not-stored", "C09", "break", (S, "        self.store[address][entry] = (callback_expired, timeout_handle)", "        self.store[address][entry] = (callback_expired, None)"))
M("ts-twin-forever-lt", "C09,C05,C06", "benign", (S, "        if ttl != TTL_FOREVER:", "        if ttl < TTL_FOREVER:"))
M("ts-no-callback-new", "C06,C05", "break", (S, "            callback_new(entry, address)\n\n        timeout_handle = None", "            pass\n\n        timeout_handle = None"))
M("ts-record-before-callback-new", "C06", "break",
  (S, "        except KeyError:\n            # pop failed => new entry\n            callback_new(entry, address)\n\n        timeout_handle = None", "        except KeyError:\n            is_new = True\n        else:\n            is_new = False\n\n        timeout_handle = None"),
  (S, "        self.store[address][entry] = (callback_expired, timeout_handle)\n", "        self.store[address][entry] = (callback_expired, timeout_handle)\n        if is_new:\n            callback_new(entry, address)\n"))
M("sub-ttl-in-identity", "C06", "break", (S, "    ttl: int = dataclasses.field(compare=False)", "    ttl: int = dataclasses.field()"))
M("sub-removed-by-findservice", "C06", "break", (S, "        if not matching_instances:\n            return\n", "        if not matching_instances:\n            return\n        for instance in matching_instances:\n            instance.subscriptions.stop_all_for_address(addr)\n"))
M("disc-direct-stop-notify", "C05", "break", (S, "        if entry.ttl == 0:\n            self.service_offer_stopped(addr, entry)", "        if entry.ttl == 0:\n            self._notify_service_stopped(someip.config.Service.from_offer_entry(entry), addr)\n            self.service_offer_stopped(addr, entry)"))
M("disc-catchup-by-matches-offer", "C05", "break", (S, "        self.watched_services[service].add(listener)\n\n        for addr, services in list(self.found_services.store.items()):\n            for s in list(services):\n                if service.matches_service(s):", "        self.watched_services[service].add(listener)\n\n        for addr, services in list(self.found_services.store.items()):\n            for s in list(services):\n                if service.matches_offer(s.create_offer_entry()):"))
M("ord-twin-loop-fanout", "C05,C06,C07", "benign", (S, "        self.subscriber.reboot_detected(addr)\n        self.discovery.reboot_detected(addr)\n        self.announcer.reboot_detected(addr)", "        for part in (self.subscriber, self.discovery, self.announcer):\n            part.reboot_detected(addr)"))

# ---------------------------------------------------------------- C10
M("c10-two-times-i", "C10", "break", (S, "await asyncio.sleep((2 ** i) * self.timings.REPETITIONS_BASE_DELAY)\n                self._send_offer()", "await asyncio.sleep((2 * i) * self.timings.REPETITIONS_BASE_DELAY)\n                self._send_offer()"))
M("c10-finally-unguarded", "C10", "break", (S, "        finally:\n            if self.timings.CYCLIC_OFFER_DELAY:\n                self._send_offer(stop=True)", "        finally:\n            self._send_offer(stop=True)"))
M("c10-flag-true-in-start", "C10,C12", "break", (S, "        self._can_answer_offers = False\n        self._task = asyncio.create_task(self._offer_task())", "        self._can_answer_offers = True\n        self._task = asyncio.create_task(self._offer_task())"))
M("c10-cyclic-sleeps-ttl", "C10", "break", (S, "                await asyncio.sleep(self.timings.CYCLIC_OFFER_DELAY)\n                self._send_offer()", "                await asyncio.sleep(self.timings.ANNOUNCE_TTL)\n                self._send_offer()"))
M("c10-stop-offer-ttl-1", "C10", "break", (S, "            self.timings.ANNOUNCE_TTL if not stop else 0", "            self.timings.ANNOUNCE_TTL if not stop else 1"))
M("c10-stop-always-sends", "C10", "break", (S, "        if not self.timings.CYCLIC_OFFER_DELAY:\n            self._send_offer(stop=True)", "        self._send_offer(stop=True)"))
M("c10-announcer-stop-unguarded", "C10", "break", (S, "        if not self.started:\n            return\n        for instance in self.announcing_services:\n            instance.stop()", "        for instance in self.announcing_services:\n            instance.stop()"))
M("c10-stop-keeps-may-answer", "C10,C12", "break", (S, "        self._task = None\n        self._can_answer_offers = False\n", "        self._task = None\n"))
M("c10-deferred-offer-unchecked", "C10,C12", "break", (S, "        if not stop and self._task is None:\n            # delayed answer to a FindService, scheduled before this instance was stopped\n            return\n", ""))
M("c10-try-covers-initial-wait", "C10", "break",
  (S, "        await asyncio.sleep(\n            random.uniform(\n                self.timings.INITIAL_DELAY_MIN, self.timings.INITIAL_DELAY_MAX\n            )\n        )\n        self._send_offer()\n\n        try:\n            self._can_answer_offers = True",
      "        try:\n            await asyncio.sleep(\n                random.uniform(\n                    self.timings.INITIAL_DELAY_MIN, self.timings.INITIAL_DELAY_MAX\n                )\n            )\n            self._send_offer()\n            self._can_answer_offers = True"))
M("c10-twin-try-covers-first-offer", "C10,C12", "benign", (S, "        self._send_offer()\n\n        try:\n            self._can_answer_offers = True", "        try:\n            self._send_offer()\n            self._can_answer_offers = True"))
M("c10-twin-delay-commuted", "C10", "benign", (S, "await asyncio.sleep((2 ** i) * self.timings.REPETITIONS_BASE_DELAY)\n                self._send_offer()", "await asyncio.sleep(self.timings.REPETITIONS_BASE_DELAY * (1 << i))\n                self._send_offer()"))

# ---------------------------------------------------------------- C12
M("c12-channel-branches-swapped", "C12", "break", (S, "        if received_over_multicast:\n            # R21-11", "        if not received_over_multicast:\n            # R21-11"))
M("c12-answer-to-multicast-group", "C12", "break", (S, "                asyncio.get_event_loop().call_soon(func, addr)", "                asyncio.get_event_loop().call_soon(func)"))
M("c12-only-first-instance-answers", "C12", "break", (S, "        for instance in matching_instances:\n            call(instance._send_offer)", "        call(matching_instances[0]._send_offer)"))
M("c12-gate-ignores-flag", "C12", "break", (S, "        if not self._can_answer_offers:\n            # 4.2.1 SWS_SD_00319", "        if False:\n            # 4.2.1 SWS_SD_00319"))
M("c12-wrong-delay-window", "C12", "break", (S, "                self.timings.REQUEST_RESPONSE_DELAY_MIN,\n                self.timings.REQUEST_RESPONSE_DELAY_MAX,", "                self.timings.REQUEST_RESPONSE_DELAY_MAX,\n                self.timings.REQUEST_RESPONSE_DELAY_MAX * 2,"))
M("c12-everyone-answers", "C12", "break", (S, "            if instance.matches_find(entry, addr):\n                matching_instances.append(instance)", "            if instance.matches_find(entry, addr) or True:\n                matching_instances.append(instance)"))
M("c12-twin-lambda-free-loop", "C12", "benign", (S, "        for instance in matching_instances:\n            call(instance._send_offer)", "        for inst in matching_instances:\n            call(inst._send_offer)"))

# ---------------------------------------------------------------- C11
M("c11-announcer-always-nacks", "C11", "break", (S, "        if not matching_services:\n            self.log.warning(", "        if True:\n            self.log.warning("))
M("c11-no-nack-on-rejection", "C11,C06", "break", (S, "        except NakSubscription:\n            self.announcer._send_subscribe_nack(subscription, addr)", "        except NakSubscription:\n            pass"))
M("c11-ack-to-multicast", "C11", "break", (S, "            self.announcer.queue_send(subscription.to_ack_entry(), remote=addr)", "            self.announcer.queue_send(subscription.to_ack_entry())"))
M("c11-ack-wrong-instance", "C11", "break", (S, "            instance_id=self.instance_id,\n            major_version=self.major_version,\n            ttl=self.ttl,", "            instance_id=self.service_id,\n            major_version=self.major_version,\n            ttl=self.ttl,"))
M("c11-stopsubscribe-answered", "C11", "break", (S, "        if entry.ttl == 0:\n            self.eventgroup_subscribe_stopped(addr, subscription)\n            return True", "        if entry.ttl == 0:\n            self.eventgroup_subscribe_stopped(addr, subscription)\n            self.announcer.queue_send(subscription.to_ack_entry(), remote=addr)\n            return True"))
M("c11-multicast-gate-off", "C11", "break", (S, "                if multicast:\n                    self.log.warning(\n                        \"discarding subscribe", "                if False:\n                    self.log.warning(\n                        \"discarding subscribe"))
M("c11-counter-dropped", "C11", "break", (S, "            counter=entry.eventgroup_counter,", "            counter=0,"))
M("c11-nack-ttl-1", "C11", "break", (S, "        return dataclasses.replace(self, ttl=0).to_ack_entry()", "        return dataclasses.replace(self, ttl=1).to_ack_entry()"))
M("c11-no-running-check", "C11", "break", (S, "        if self._task is None:\n            return False\n\n        if not self.service.matches_subscribe(entry):", "        if not self.service.matches_subscribe(entry):"))

# ---------------------------------------------------------------- C13
M("c13-list-built-before-sleep", "C13", "break", (S, "            await asyncio.sleep(\n                (2 ** i) * self.timings.REPETITIONS_BASE_DELAY\n            )  # 4.2.1: SWS_SD_00363\n\n            find_entries = _build_entries()", "            find_entries = _build_entries()\n            await asyncio.sleep(\n                (2 ** i) * self.timings.REPETITIONS_BASE_DELAY\n            )  # 4.2.1: SWS_SD_00363\n"))
M("c13-no-found-filter", "C13", "break", (S, "                if not self._service_found(service)  # 4.2.1: SWS_SD_00365", ""))
M("c13-one-more-round", "C13", "break", (S, "        for i in range(self.timings.REPETITIONS_MAX):\n            await asyncio.sleep(\n                (2 ** i) * self.timings.REPETITIONS_BASE_DELAY\n            )  # 4.2.1: SWS_SD_00363", "        for i in range(self.timings.REPETITIONS_MAX + 1):\n            await asyncio.sleep(\n                (2 ** i) * self.timings.REPETITIONS_BASE_DELAY\n            )  # 4.2.1: SWS_SD_00363"))
M("c13-continue-instead-of-return", "C13", "break", (S, "            find_entries = _build_entries()\n            if not find_entries:\n                return\n            self.sd.send_sd(find_entries)  # 4.2.1: SWS_SD_00457", "            find_entries = _build_entries()\n            if not find_entries:\n                continue\n            self.sd.send_sd(find_entries)  # 4.2.1: SWS_SD_00457"))
M("c13-find-ttl", "C13", "break", (S, "                service.create_find_entry(self.timings.FIND_TTL)", "                service.create_find_entry(self.timings.ANNOUNCE_TTL)"))
M("c13-found-by-offer-match", "C13", "break", (S, "        return any(service.matches_service(s) for s in self.found_services.entries())", "        return any(s.matches_offer(service.create_offer_entry()) for s in self.found_services.entries())"))
M("c13-find-to-unicast", "C13", "break", (S, "            self.sd.send_sd(find_entries)  # 4.2.1: SWS_SD_00457", "            self.sd.send_sd(find_entries, remote=(\"192.0.2.1\", 30490))  # 4.2.1: SWS_SD_00457"))

# ---------------------------------------------------------------- C14
M("c14-subscribe-sent-synchronously", "C14", "break", (S, "        if self.alive:\n            asyncio.get_event_loop().call_soon(\n                self._send_start_subscribe, endpoint, [eventgroup]\n            )", "        if self.alive:\n            self._send_start_subscribe(endpoint, [eventgroup])"))
M("c14-stop-without-removal-check", "C14", "break", (S, "            self.subscribeentries.remove((eventgroup, endpoint))\n        except ValueError:\n            return\n", "            self.subscribeentries.remove((eventgroup, endpoint))\n        except ValueError:\n            pass\n"))
M("c14-subscribe-to-default-addr", "C14", "break", (S, "            [e.create_subscribe_entry(ttl=ttl) for e in entries], remote=remote", "            [e.create_subscribe_entry(ttl=ttl) for e in entries], remote=self.sd.default_addr"))
M("c14-refresh-sleeps-ttl", "C14", "break", (S, "                await asyncio.sleep(self.timings.SUBSCRIBE_REFRESH_INTERVAL)", "                await asyncio.sleep(self.timings.SUBSCRIBE_TTL)"))
M("c14-alive-not-cleared", "C14", "break", (S, "        self.alive = False\n\n        if self.task:  # pragma: nobranch", "        if self.task:  # pragma: nobranch"))
M("c14-stopsubscribe-ttl-1", "C14", "break", (S, "        self._send_subscribe(0, remote, entries)", "        self._send_subscribe(1, remote, entries)"))
M("c14-grouping-lost", "C14", "break", (S, "            endpoint_entries[endpoint].append(eventgroup)", "            endpoint_entries[self.sd.default_addr].append(eventgroup)"))
M("c14-endpoint-protocol-fixed", "C14", "break", (C, "                address=naddr, l4proto=protocol, port=nport\n            )\n        elif", "                address=naddr, l4proto=someip.header.L4Protocols.UDP, port=nport\n            )\n        elif"))
M("c14-two-endpoint-options", "C14", "break", (C, "            options_1=(endpoint_option,),", "            options_1=(endpoint_option, endpoint_option),"))

# ---------------------------------------------------------------- C15
M("c15-reuse-done-collector", "C15", "break", (S, "        if queue is None or queue.done:", "        if queue is None:"))
M("c15-done-after-callback", "C15", "break", (S, "        self.done = True\n        self.callback(self.data, *self.args, **self.kwargs)", "        self.callback(self.data, *self.args, **self.kwargs)\n        self.done = True"))
M("c15-collector-remote-none", "C15", "break", (S, "                self.timings.SEND_COLLECTION_TIMEOUT, self.sd.send_sd, remote=remote\n            )", "                self.timings.SEND_COLLECTION_TIMEOUT, self.sd.send_sd, remote=None\n            )"))
M("c15-filed-under-none", "C15", "break", (S, "            self.send_queues[remote] = queue = SendCollector(", "            self.send_queues[None] = queue = SendCollector("))
M("c15-flush-sorted", "C15", "break", (S, "        self.callback(self.data, *self.args, **self.kwargs)", "        self.callback(sorted(self.data, key=str), *self.args, **self.kwargs)"))
M("c15-bypass-falls-through", "C15", "break", (S, "            self.sd.send_sd([entry], remote=remote)\n            return", "            self.sd.send_sd([entry], remote=remote)"))
M("c15-instance-bypasses-queue", "C15", "break", (S, "        self.announcer.queue_send(entry, remote=remote)", "        self.announcer.sd.send_sd([entry], remote=remote)"))
M("c15-timer-doubled", "C15", "break", (S, "            timeout, self._handle_timeout\n        )", "            timeout * 2, self._handle_timeout\n        )"))

# ---------------------------------------------------------------- C16
M("c16-reply-on-multicast", "C16", "break", (V, "        if multicast:\n            warnings.warn(", "        if False:\n            warnings.warn("))
M("c16-response-for-no-return", "C16", "break", (V, "            and someip_message.message_type == header.SOMEIPMessageType.REQUEST\n        ):", "        ):"))
M("c16-fall-through-after-error", "C16", "break", (V, "                someip_message, addr, header.SOMEIPReturnCode.E_UNKNOWN_METHOD\n            )\n            return", "                someip_message, addr, header.SOMEIPReturnCode.E_UNKNOWN_METHOD\n            )"))
M("c16-wrong-return-code", "C16", "break", (V, "                someip_message, addr, header.SOMEIPReturnCode.E_WRONG_INTERFACE_VERSION", "                someip_message, addr, header.SOMEIPReturnCode.E_WRONG_PROTOCOL_VERSION"))
M("c16-return-code-check-dropped", "C16", "break", (V, "        if someip_message.return_code != header.SOMEIPReturnCode.E_OK:", "        if False:"))
M("c16-error-to-default-addr", "C16", "break", (V, "        self.send(resp.build(), addr)\n\n    def send_positive_response(", "        self.send(resp.build())\n\n    def send_positive_response("))
M("c16-error-keeps-payload", "C16", "break", (V, '            payload=b"",\n        )', "        )"))
M("c16-swap-checks", "C16", "break",
  (V, "        if someip_message.service_id != self.service_id:\n            self.log.warning(\"received message for unknown service: %r\", someip_message)\n            self.send_error_response(\n                someip_message, addr, header.SOMEIPReturnCode.E_UNKNOWN_SERVICE\n            )\n            return\n", ""),
  (V, "        method = self.methods.get(someip_message.method_id)\n", "        if someip_message.service_id != self.service_id:\n            self.send_error_response(\n                someip_message, addr, header.SOMEIPReturnCode.E_UNKNOWN_SERVICE\n            )\n            return\n        method = self.methods.get(someip_message.method_id)\n"))

# ---------------------------------------------------------------- C17
M("c17-method-id-and", "C17", "break", (V, "method_id=0x8000 | event_id,", "method_id=0x8000 & event_id,"))
M("c17-twin-method-id-plus", "C17", "benign", (V, "method_id=0x8000 | event_id,", "method_id=0x8000 + event_id,"))
M("c17-has-clients-never-cleared", "C17", "break", (V, "        if not self.subscribed_endpoints:\n            self.has_clients.clear()", "        pass"))
M("c17-accepts-many-endpoints", "C17", "break", (V, "            if len(subscription.endpoints) != 1:", "            if len(subscription.endpoints) < 1:"))
M("c17-interface-version-minor", "C17", "break", (V, "                interface_version=self.service.version_major,", "                interface_version=self.service.version_minor,"))
M("c17-only-first-subscriber", "C17", "break", (V, "                for ep in self.subscribed_endpoints", "                for ep in list(self.subscribed_endpoints)[:1]"))
M("c17-round-without-clients", "C17", "break", (V, "        if not self.has_clients.is_set():\n            return", "        pass"))
M("c17-initial-notification-to-all", "C17", "break", (V, '            self._notify_single(endpoint, events=self.values.keys(), label="initial")', '            self._notify_all(events=self.values.keys(), label="initial")'))
M("c17-narrow-except", "C17", "break", (V, "        except Exception as exc:\n            self.log.exception(\n                \"client_subscribed from %r: %s failed\", source, subscription\n            )\n            raise sd.NakSubscription from exc", "        except sd.NakSubscription:\n            raise"))
M("c17-only-last-event", "C17", "break", (V, "            msgbuf += hdr.build()", "            msgbuf = hdr.build()"))
M("c17-session-key-mismatch", "C17,C08", "break", (V, "assign_outgoing(addr)", "assign_outgoing(endpoint)"))

# ---------------------------------------------------------------- C03
M("c03-enum-conversion-unguarded", "C03", "break", (H, "        try:\n            mt = SOMEIPMessageType(mt_b)\n        except ValueError as exc:\n            raise ParseError(\"bad someip message type {mt_b:#x}\") from exc", "        mt = SOMEIPMessageType(mt_b)"))
M("c03-config-length-guard-1", "C03", "break", (H, "        if len(buf) < 2:\n            raise ParseError(\n                f\"SD config option with wrong payload length {len(buf)} < 2\"\n            )", "        if len(buf) < 1:\n            raise ParseError(\n                f\"SD config option with wrong payload length {len(buf)} < 2\"\n            )"))
M("c03-unpack-guard-removed", "C03,C01", "break", (H, "    if len(buf) < fmt.size:\n        raise IncompleteReadError(\n            f\"can not parse {fmt.format!r}, got only {len(buf)} bytes\"\n        )\n", ""))
M("c03-config-inner-guard", "C03", "break", (H, "            if len(b) < nextlen + 1:", "            if len(b) < nextlen:"))
M("c03-loadbalancing-guard-removed", "C03", "break", (H, "        if len(buf) != 5:\n            raise ParseError(\n                f\"SD load balancing option with wrong payload length {len(buf)} != 5\"\n            )\n", ""))
M("c03-sd-catches-parseerror-only", "C03", "break", (S, "        except (someip.header.ParseError, UnicodeDecodeError) as exc:", "        except someip.header.ParseError as exc:"))
M("c03-datagram-catches-nothing", "C03", "break", (S, "        except someip.header.ParseError as exc:\n            self.log.error(\n                \"failed to parse SOME/IP datagram from %s: %r\",", "        except KeyError as exc:\n            self.log.error(\n                \"failed to parse SOME/IP datagram from %s: %r\","))
M("c03-filter-disjunct-dropped", "C03", "break", (S, "            or someip_message.interface_version != someip.header.SD_INTERFACE_VERSION\n", ""))
M("c03-state-before-filter", "C03,C07", "break", (S, "        if (\n            someip_message.service_id != someip.header.SD_SERVICE", "        self.session_storage.check_received(addr, multicast, False, someip_message.session_id)\n        if (\n            someip_message.service_id != someip.header.SD_SERVICE"))
M("c03-unicast-flag-ignored", "C03", "break", (S, "        if not sdhdr.flag_unicast:", "        if False:"))
M("c03-option-loop-no-progress", "C03", "break", (H, "            option, options_buffer = SOMEIPSDOption.parse(options_buffer)\n            options.append(option)", "            option, _unused = SOMEIPSDOption.parse(options_buffer)\n            options.append(option)"))
M("c03-twin-guard-order", "C03,C01", "benign", (H, "    if len(buf) < fmt.size:\n        raise IncompleteReadError(", "    if not len(buf) >= fmt.size:\n        raise IncompleteReadError("))

# ---------------------------------------------------------------- C04
M("c04-auto-subscriber-does-not-subscribe", "C04", "break", (S, "        self.subscriber.subscribe_eventgroup(eventgroup, source)", "        pass"))
M("c04-unsubscribe-key-mismatch", "C04", "break", (S, "        self.subscriber.stop_subscribe_eventgroup(eventgroup, source)", "        self.subscriber.stop_subscribe_eventgroup(eventgroup, service)"))
M("c04-announcer-not-told-about-reboot", "C04,C07", "break", (S, "        self.subscriber.reboot_detected(addr)\n        self.discovery.reboot_detected(addr)\n        self.announcer.reboot_detected(addr)", "        self.subscriber.reboot_detected(addr)\n        self.discovery.reboot_detected(addr)"))
M("c04-connection-lost-keeps-services", "C04,C05", "break", (S, "        self.found_services.stop_all()", "        pass"))
M("c04-stop-keeps-subscriptions", "C04,C06", "break", (S, "        self.subscriptions.stop_all()\n", ""))
M("c04-offers-ignored", "C04", "break", (S, "            if entry.sd_type == someip.header.SOMEIPSDEntryType.OfferService:\n                asyncio.get_event_loop().call_soon(\n                    self.discovery.handle_offer, entry, addr\n                )\n                continue", "            if entry.sd_type == someip.header.SOMEIPSDEntryType.OfferService:\n                continue"))

# guard-only changes must not alarm the canonicalisation property, nor a find-only change the discovery history
M("c20-twin-bounds-check-weaker", "C20", "benign", (H, "        if oi2 + no2 > num_options:", "        if oi2 + no2 > num_options + 1:"))
M("c20-twin-sd-framing-guard-weaker", "C20", "benign", (H, "        if len(rest_buf) < entries_length + 4:", "        if len(rest_buf) < entries_length:"))
M("c20-twin-length-guard-stricter", "C20", "benign", (H, "        if size < 8:", "        if size <= 8:"))
M("c05-twin-found-predicate", "C05", "benign", (S, "        return any(service.matches_service(s) for s in self.found_services.entries())", "        return any(s.matches_offer(service.create_offer_entry()) for s in self.found_services.entries())"))

# the collection deadline matters to C15 (and C12's 'in time'), not to exactly-once answers / stop-offers
M("c15-twin-for-c10-c11-timer-doubled", "C10,C11", "benign", (S, "            timeout, self._handle_timeout\n        )", "            timeout * 2, self._handle_timeout\n        )"))
M("c15-collected-list-filtered", "C15,C10,C11,C12", "break", (S, "        queue.append(entry)\n", "        queue.data[:] = [e for e in queue.data if e.service_id != entry.service_id or e.sd_type != entry.sd_type]\n        queue.append(entry)\n"))
M("c15-append-rearms-timer", "C15,C12", "break", (S, "        self.data.append(datum)\n", "        self._handle.cancel()\n        self._handle = asyncio.get_event_loop().call_later(0.005, self._handle_timeout)\n        self.data.append(datum)\n"))

# ---------------------------------------------------------------- round B: fan-out completeness (C05 F2)
M("c05-watch-all-listeners-forgotten", "C05", "break", (S, "                    listener.service_offered(service, source)\n        for listener in self.watcher_all_services:\n            listener.service_offered(service, source)\n", "                    listener.service_offered(service, source)\n"))
M("c05-catchup-without-source", "C05", "break", (S, "                if service.matches_service(s):\n                    listener.service_offered(s, addr)", "                if service.matches_service(s):\n                    listener.service_offered(s, None)"))
M("c05-notifier-swaps-arguments", "C05", "break", (S, "        for listener in self.watcher_all_services:\n            listener.service_stopped(service, source)", "        for listener in self.watcher_all_services:\n            listener.service_stopped(source, service)"))
M("c05-twin-catchup-by-keys", "C05", "benign", (S, "        self.watcher_all_services.add(listener)\n\n        for addr, services in list(self.found_services.store.items()):\n            for s in list(services):\n                listener.service_offered(s, addr)", "        self.watcher_all_services.add(listener)\n\n        for addr in list(self.found_services.store):\n            for s in list(self.found_services.store[addr]):\n                listener.service_offered(s, addr)"))


# ---------------------------------------------------------------- round B: whole-region refactorings written by independent
# maintainers-for-a-day (benign/<id>/refactor.diff + refactor.json); every check must stay silent on each of them
ALL = ",".join(f"C{i:02d}" for i in range(1, 21))
import os as _os
_ROOT = _os.path.dirname(_os.path.dirname(_os.path.dirname(_os.path.abspath(__file__))))
REFACTORINGS = {
    "R01": "C01,C18,C20,C03", "R02": "C02,C20,C03,C11,C12,C19", "R03": "C02,C20,C03", "R04": "C02,C20,C03",
    "R05": "C19,C12,C13,C05", "R06": "C19,C14", "R07": "C03,C04,C07,C08,C01,C10", "R08": "C14,C04,C06",
    "R09": "C05,C06,C09,C04", "R10": "C05,C13,C03,C04,C06", "R11": "C10,C11,C12,C06", "R12": "C15,C10,C11,C12,C03,C04",
    "R13": "C08,C17", "R14": "C16,C17,C10",
}
for _r, _props in REFACTORINGS.items():
    CORPUS.append({"name": f"refactoring-{_r}", "props": ALL.split(","), "kind": "benign", "edits": [],
                   "diff": f"benign/{_r}/refactor.diff"})
    # second pass over the same regions (round B2: structural rewrites - helpers, NamedTuples, match, walrus, generators)
    CORPUS.append({"name": f"refactoring-B2-{_r}", "props": ALL.split(","), "kind": "benign", "edits": [],
                   "diff": f"benign/B2-{_r}/refactor.diff"})
    # third pass (round B3: private renames, dispatch tables, context managers, value classes, computed constants)
    CORPUS.append({"name": f"refactoring-B3-{_r}", "props": ALL.split(","), "kind": "benign", "edits": [],
                   "diff": f"benign/B3-{_r}/refactor.diff"})
    # fourth pass, stacked on the third (round B4: standard-library idioms - operator / itertools / functools, unpack_from,
    # walrus, filter / map, next(.., default), asyncio spellings)
    CORPUS.append({"name": f"refactoring-B4-{_r}", "props": ALL.split(","), "kind": "benign", "edits": [],
                   "diff": f"benign/B4-{_r}/refactor.diff", "base": f"benign/B3-{_r}/refactor.diff"})
    # fifth pass, stacked on B3+B4 (round B5: structure - helper classes by composition, parameter objects, pipelines with
    # context objects, functions moved between module / class / value class, iterator classes)
    if _os.path.exists(_os.path.join(_ROOT, "benign", f"B5-{_r}", "refactor.diff")):
        CORPUS.append({"name": f"refactoring-B5-{_r}", "props": ALL.split(","), "kind": "benign", "edits": [],
                       "diff": f"benign/B5-{_r}/refactor.diff", "base": f"benign/B4-{_r}/stacked.diff"})
    # sixth pass, on the original tree (round B6: inlining and merging - helpers folded into their callers, sibling
    # functions merged behind a flag, temporaries removed, early returns turned into elif chains)
    if _os.path.exists(_os.path.join(_ROOT, "benign", f"B6-{_r}", "refactor.diff")):
        CORPUS.append({"name": f"refactoring-B6-{_r}", "props": ALL.split(","), "kind": "benign", "edits": [],
                       "diff": f"benign/B6-{_r}/refactor.diff"})
    # seventh pass, stacked on B6 (round B7: error-handling and control-flow style - EAFP <-> LBYL, try/else, suppress,
    # for/else, guard clauses <-> nested ifs, De Morgan, conditional expressions <-> statements)
    if _os.path.exists(_os.path.join(_ROOT, "benign", f"B7-{_r}", "refactor.diff")):
        CORPUS.append({"name": f"refactoring-B7-{_r}", "props": ALL.split(","), "kind": "benign", "edits": [],
                       "diff": f"benign/B7-{_r}/refactor.diff", "base": f"benign/B6-{_r}/refactor.diff"})
    # eighth pass, stacked on B6 + B7 (round B8: names, aliases and argument style - attribute chains hoisted into locals,
    # positional <-> keyword arguments, ** of a local dict, nested function <-> private method, tuple unpacking styles)
    if _os.path.exists(_os.path.join(_ROOT, "benign", f"B8-{_r}", "refactor.diff")):
        CORPUS.append({"name": f"refactoring-B8-{_r}", "props": ALL.split(","), "kind": "benign", "edits": [],
                       "diff": f"benign/B8-{_r}/refactor.diff", "base": f"benign/B7-{_r}/stacked.diff"})
# feature twins: the benign half of a seeded feature addition (the feature without the defect) - no check may report them
for _f in sorted(_os.listdir(_os.path.join(_ROOT, "benign"))):
    if _f.startswith("F") and _os.path.exists(_os.path.join(_ROOT, "benign", _f, "refactor.diff")):
        import json as _json0
        CORPUS.append({"name": f"feature-twin-{_f}", "props": ALL.split(","), "kind": "benign", "edits": [],
                       "diff": f"benign/{_f}/refactor.diff",
                       "base": _json0.load(open(_os.path.join(_ROOT, "benign", _f, "refactor.json"))).get("base")})

# ---------------------------------------------------------------- the independently seeded breaking changes (seeded/<id>/patch.diff):
# the target property's check must report each of them
import os as _os
import re as _re
_SEEDED = _os.path.join(_os.path.dirname(_os.path.dirname(_os.path.dirname(_os.path.abspath(__file__)))), "seeded")
if _os.path.isdir(_SEEDED):
    for _sid in sorted(_os.listdir(_SEEDED)):
        _m = _re.search(r"C\d\d", _sid)
        if _m and _os.path.exists(_os.path.join(_SEEDED, _sid, "patch.diff")):
            _base = None
            try:
                import json as _json
                _meta = _json.load(open(_os.path.join(_SEEDED, _sid, "meta.json")))
                _base = _meta.get("base")
                if _meta.get("superseded"):
                    continue  # broke the property only through a defect that has been repaired since (see its meta.json)
            except Exception:
                pass
            CORPUS.append({"name": f"seeded-{_sid}", "props": [_m.group(0)], "kind": "break", "edits": [],
                           "diff": f"seeded/{_sid}/patch.diff", "base": _base})
